#!/venv/bin/python
"""Regenerate /verif/MANIFEST.json from the rule modules present in hvlint/rules."""
from __future__ import annotations

import importlib
import json
import sys
from pathlib import Path

ROOT = Path(__file__).resolve().parent.parent
sys.path.insert(0, str(ROOT))

PROPS = [json.loads(l)["id"] for l in (ROOT / "properties.jsonl").read_text().splitlines() if l.strip()]
PY = "/venv/bin/python"

PENDING_REASON = ("no sound static rule set has been built for this property (yet); nothing is claimed for it "
                  "rather than claiming it through a brittle proxy - see DESIGN.md section 11")


def main():
    checks = []
    na = []
    serves = []
    for pid in PROPS:
        try:
            mod = importlib.import_module(f"hvlint.rules.{pid}")
        except ModuleNotFoundError:
            na.append({"property_id": pid, "reason": getattr(sys.modules.get("hvlint.rules"), "NA", {}).get(pid, PENDING_REASON)})
            continue
        if getattr(mod, "NOT_APPLICABLE", None):
            na.append({"property_id": pid, "reason": mod.NOT_APPLICABLE})
            continue
        serves.append(pid)
        checks.append({
            "property_id": pid,
            "quick_cmd": f"{PY} -m hvlint check {pid} --tier quick",
            "thorough_cmd": f"{PY} -m hvlint check {pid} --tier thorough",
            "evidence_file": f"/verif/evidence/{pid}.json",
            "replay_cmd_template": f"{PY} -m hvlint explain {{path}}",
            "engine": "hvlint",
            "level_claimed": {
                "category": mod.LEVEL,
                "text": mod.EXPLANATION,
                "design_ref": f"DESIGN.md section 6, {pid}",
            },
            "level_note": "; ".join(getattr(mod, "ASSUMPTIONS", [])) or "CPython ast; hvlint oracle tables",
            "technique": getattr(mod, "TECHNIQUE", "static analysis: AST/def-use reconstruction, CFG path rules, call-site enumeration"),
        })
    man = {
        "version": 1,
        "setup_cmd": f"cd /verif && {PY} -m compileall -q hvlint",
        "hooks": {
            "guard": "DISSECT_HYPERVISOR_VERIF",
            "enable": "no hooks: the checks only read /repo's source text; nothing in /repo is instrumented",
            "baseline_off_cmd": "cd /repo && /venv/bin/python -m pytest -ra -q -p no:cacheprovider --timeout=900 --continue-on-collection-errors",
            "source_commits": [],
            "add_only": True,
        },
        "engines": [{
            "name": "hvlint",
            "path": "/verif/hvlint",
            "serves_properties": serves,
            "kind_free_text": "purpose-built static analyser (stdlib ast): cstruct layout parser, constant folding, "
                              "symbol tables, CFG + reaching definitions, def-use expression reconstruction with "
                              "equality by normal form / identity testing of terms, predicate-abstraction decision "
                              "tables, who-may-call and provenance rules; never imports or runs the repository",
        }],
        "checks": checks,
        "notes": "All checks are static: they parse /repo/dissect/hypervisor/**/*.py on every run. Exit 0 holds / "
                 "1 VIOLATION / 2 ANALYSIS-ERROR (anchor vanished or undecidable shape). Known findings: "
                 "/verif/known_findings.json. Thorough tier = quick tier + checker self-test (mutants/twins).",
        "not_applicable": na,
    }
    (ROOT / "MANIFEST.json").write_text(json.dumps(man, indent=1) + "\n")
    print(f"MANIFEST.json: {len(checks)} checks, {len(na)} not_applicable")


if __name__ == "__main__":
    main()
