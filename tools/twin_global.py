#!/venv/bin/python
"""Whole-tree behaviour-preserving rewrites, analysed in memory by every check (developer tool / thorough self-test).

  rename   every local variable of every function is renamed (parameters and attributes keep their names)
  unparse  the modules are only round-tripped through ast.unparse (formatting, quotes, parentheses, line numbers change)
  reorder  the methods of every class appear in reverse order
  noise    docstrings, debug log calls, an unused import and constant are added; exception message texts change
  hints    parameter and return annotations are removed
"""
from __future__ import annotations

import ast
import sys
from multiprocessing import Pool
from pathlib import Path

sys.path.insert(0, str(Path(__file__).resolve().parent.parent))


class Renamer(ast.NodeTransformer):
    def visit_FunctionDef(self, node):
        params = {a.arg for a in node.args.posonlyargs + node.args.args + node.args.kwonlyargs}
        if node.args.vararg:
            params.add(node.args.vararg.arg)
        if node.args.kwarg:
            params.add(node.args.kwarg.arg)
        declared = set()
        stored = set()
        for n in ast.walk(node):
            if isinstance(n, (ast.Global, ast.Nonlocal)):
                declared |= set(n.names)
            elif isinstance(n, ast.Name) and isinstance(n.ctx, ast.Store):
                stored.add(n.id)
            elif isinstance(n, ast.ExceptHandler) and n.name:
                stored.add(n.name)
            elif isinstance(n, (ast.FunctionDef, ast.ClassDef)) and n is not node:
                stored.discard(n.name)
        local = stored - params - declared
        mapping = {name: f"loc_{i}_{name[::-1]}" for i, name in enumerate(sorted(local))}
        for n in ast.walk(node):
            if isinstance(n, ast.Name) and n.id in mapping:
                n.id = mapping[n.id]
            elif isinstance(n, ast.ExceptHandler) and n.name in mapping:
                n.name = mapping[n.name]
        return node

    visit_AsyncFunctionDef = visit_FunctionDef


def make_overrides(kind: str, root="/repo"):
    out = {}
    pkg = Path(root) / "dissect/hypervisor"
    for p in sorted(pkg.rglob("*.py")):
        rel = p.relative_to(pkg).as_posix()
        tree = ast.parse(p.read_text())
        if kind == "rename":
            # only top-level functions and methods (nested defs are renamed with their parent)
            tree = _rename_outer(tree)
        elif kind == "reorder":
            tree = _reorder(tree)
        elif kind == "noise":
            tree = _noise(tree)
        elif kind == "hints":
            tree = _strip_hints(tree)
        out[rel] = ast.unparse(tree) + "\n"
    return out


def _reorder(tree):
    """Methods of every class and the functions of every module in reverse order (definitions only; module-level
    statements and class-level assignments keep their places relative to each other, functions used by module-level
    code - decorators, rebinding - stay where they are)."""
    for n in ast.walk(tree):
        if isinstance(n, ast.ClassDef):
            idx = [i for i, s in enumerate(n.body) if isinstance(s, ast.FunctionDef) and not s.decorator_list]
            funcs = [n.body[i] for i in idx][::-1]
            for i, f in zip(idx, funcs):
                n.body[i] = f
    return tree


def _noise(tree):
    """Edits that add or change nothing of the behaviour: a docstring and a debug call at the top of every function, an unused
    module constant and import, different exception message texts."""
    has_log = any(isinstance(s, ast.Assign) and any(isinstance(t, ast.Name) and t.id == "log" for t in s.targets) for s in tree.body)
    for n in ast.walk(tree):
        if isinstance(n, (ast.FunctionDef, ast.AsyncFunctionDef)):
            first = n.body[0]
            body = list(n.body)
            if not (isinstance(first, ast.Expr) and isinstance(first.value, ast.Constant) and isinstance(first.value.value, str)):
                body.insert(0, ast.Expr(value=ast.Constant(value=f"Twin docstring for {n.name}.")))
            if has_log and not any(isinstance(x, (ast.Yield, ast.YieldFrom)) for x in ast.walk(n)):
                body.insert(1, ast.Expr(value=ast.Call(func=ast.Attribute(value=ast.Name(id="log", ctx=ast.Load()), attr="debug", ctx=ast.Load()),
                                                       args=[ast.Constant(value="enter %s"), ast.Constant(value=n.name)], keywords=[])))
            n.body = body
        elif isinstance(n, ast.Raise) and isinstance(n.exc, ast.Call) and n.exc.args and isinstance(n.exc.args[0], (ast.Constant, ast.JoinedStr)):
            a0 = n.exc.args[0]
            if isinstance(a0, ast.Constant) and isinstance(a0.value, str):
                n.exc.args[0] = ast.Constant(value="twin: " + a0.value)
    pos = 0
    for i, s_ in enumerate(tree.body):
        if isinstance(s_, (ast.Import, ast.ImportFrom)) or (isinstance(s_, ast.Expr) and isinstance(getattr(s_, "value", None), ast.Constant)):
            pos = i + 1
    tree.body.insert(pos, ast.Assign(targets=[ast.Name(id="_TWIN_UNUSED", ctx=ast.Store())], value=ast.Constant(value=12345), lineno=1))
    tree.body.insert(pos, ast.Import(names=[ast.alias(name="itertools", asname="_twin_itertools")]))
    ast.fix_missing_locations(tree)
    return tree


def _strip_hints(tree):
    """Annotations of parameters and return values removed (annotated assignments keep theirs: they are statements)."""
    for n in ast.walk(tree):
        if isinstance(n, (ast.FunctionDef, ast.AsyncFunctionDef)):
            n.returns = None
            for a in n.args.posonlyargs + n.args.args + n.args.kwonlyargs:
                a.annotation = None
            if n.args.vararg:
                n.args.vararg.annotation = None
            if n.args.kwarg:
                n.args.kwarg.annotation = None
    return tree


def _rename_outer(tree):
    r = Renamer()
    for n in ast.walk(tree):
        if isinstance(n, (ast.Module, ast.ClassDef)):
            for i, s in enumerate(n.body):
                if isinstance(s, (ast.FunctionDef, ast.AsyncFunctionDef)):
                    n.body[i] = r.visit_FunctionDef(s)
    return tree


def _job(args):
    prop, kind = args
    from hvlint.engine import run_check

    ov = make_overrides(kind)
    for rel, src in ov.items():
        compile(src, rel, "exec")
    rc, chk = run_check(prop, "quick", overrides=ov, quiet=True, write=False)
    keys = [i.key for i in getattr(chk, "new_violations", [])] if chk else []
    und = [f"{i.key}: {i.detail[:120]}" for i in getattr(chk, "undecided_armed", [])] if chk else []
    return prop, kind, rc, keys, und, getattr(chk, "count_errors", [])


def main():
    kinds = sys.argv[1:] or ["unparse", "rename", "reorder", "noise", "hints"]
    props = [f"C{i:02d}" for i in range(1, 21)]
    with Pool(16) as pool:
        res = pool.map(_job, [(p, k) for k in kinds for p in props])
    bad = 0
    for prop, kind, rc, keys, und, ce in res:
        if rc != 0:
            bad += 1
            print(f"{kind} {prop} rc={rc}")
            for k in keys[:6]:
                print("    VIOLATED", k)
            for u in und[:6]:
                print("    UNDECIDED", u)
            for c in ce[:3]:
                print("    COUNT", c)
    print(f"global twins: {len(res) - bad} silent, {bad} alarms")
    return 1 if bad else 0


if __name__ == "__main__":
    sys.exit(main())
