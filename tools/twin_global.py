#!/venv/bin/python
"""Whole-tree behaviour-preserving rewrites, analysed in memory by every check (developer tool / thorough self-test).

  rename   every local variable of every function is renamed (parameters and attributes keep their names)
  unparse  the modules are only round-tripped through ast.unparse (formatting, quotes, parentheses, line numbers change)
"""
from __future__ import annotations

import ast
import sys
from multiprocessing import Pool
from pathlib import Path

sys.path.insert(0, str(Path(__file__).resolve().parent.parent))


class Renamer(ast.NodeTransformer):
    def visit_FunctionDef(self, node):
        params = {a.arg for a in node.args.posonlyargs + node.args.args + node.args.kwonlyargs}
        if node.args.vararg:
            params.add(node.args.vararg.arg)
        if node.args.kwarg:
            params.add(node.args.kwarg.arg)
        declared = set()
        stored = set()
        for n in ast.walk(node):
            if isinstance(n, (ast.Global, ast.Nonlocal)):
                declared |= set(n.names)
            elif isinstance(n, ast.Name) and isinstance(n.ctx, ast.Store):
                stored.add(n.id)
            elif isinstance(n, ast.ExceptHandler) and n.name:
                stored.add(n.name)
            elif isinstance(n, (ast.FunctionDef, ast.ClassDef)) and n is not node:
                stored.discard(n.name)
        local = stored - params - declared
        mapping = {name: f"loc_{i}_{name[::-1]}" for i, name in enumerate(sorted(local))}
        for n in ast.walk(node):
            if isinstance(n, ast.Name) and n.id in mapping:
                n.id = mapping[n.id]
            elif isinstance(n, ast.ExceptHandler) and n.name in mapping:
                n.name = mapping[n.name]
        return node

    visit_AsyncFunctionDef = visit_FunctionDef


def make_overrides(kind: str, root="/repo"):
    out = {}
    pkg = Path(root) / "dissect/hypervisor"
    for p in sorted(pkg.rglob("*.py")):
        rel = p.relative_to(pkg).as_posix()
        tree = ast.parse(p.read_text())
        if kind == "rename":
            # only top-level functions and methods (nested defs are renamed with their parent)
            for n in ast.walk(tree):
                pass
            tree = _rename_outer(tree)
        out[rel] = ast.unparse(tree) + "\n"
    return out


def _rename_outer(tree):
    r = Renamer()
    for n in ast.walk(tree):
        if isinstance(n, (ast.Module, ast.ClassDef)):
            for i, s in enumerate(n.body):
                if isinstance(s, (ast.FunctionDef, ast.AsyncFunctionDef)):
                    n.body[i] = r.visit_FunctionDef(s)
    return tree


def _job(args):
    prop, kind = args
    from hvlint.engine import run_check

    ov = make_overrides(kind)
    for rel, src in ov.items():
        compile(src, rel, "exec")
    rc, chk = run_check(prop, "quick", overrides=ov, quiet=True, write=False)
    keys = [i.key for i in getattr(chk, "new_violations", [])] if chk else []
    und = [f"{i.key}: {i.detail[:120]}" for i in getattr(chk, "undecided_armed", [])] if chk else []
    return prop, kind, rc, keys, und, getattr(chk, "count_errors", [])


def main():
    kinds = sys.argv[1:] or ["unparse", "rename"]
    props = [f"C{i:02d}" for i in range(1, 21)]
    with Pool(16) as pool:
        res = pool.map(_job, [(p, k) for k in kinds for p in props])
    bad = 0
    for prop, kind, rc, keys, und, ce in res:
        if rc != 0:
            bad += 1
            print(f"{kind} {prop} rc={rc}")
            for k in keys[:6]:
                print("    VIOLATED", k)
            for u in und[:6]:
                print("    UNDECIDED", u)
            for c in ce[:3]:
                print("    COUNT", c)
    print(f"global twins: {len(res) - bad} silent, {bad} alarms")
    return 1 if bad else 0


if __name__ == "__main__":
    sys.exit(main())
