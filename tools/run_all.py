#!/venv/bin/python
"""Run every registered quick check and print a one-line summary each (developer convenience)."""
import json, subprocess, sys, time
m = json.load(open("/verif/MANIFEST.json"))
bad = 0
for c in m["checks"]:
    t = time.time()
    r = subprocess.run(c["quick_cmd"], shell=True, cwd="/verif", capture_output=True, text=True)
    last = r.stdout.strip().splitlines()[-1] if r.stdout.strip() else r.stderr.strip()[-200:]
    flag = "" if r.returncode == 0 else f"  <<< rc={r.returncode}"
    print(f"{c['property_id']} rc={r.returncode} {round(time.time()-t,2)}s {last}{flag}")
    if r.returncode:
        bad += 1
        for l in r.stdout.splitlines():
            if l.startswith(("VIOLATION", "ANALYSIS-ERROR", "  ")):
                print("   ", l[:300])
sys.exit(1 if bad else 0)
