#!/venv/bin/python
"""Regenerate DESIGN.md section 13 from /verif/seeded/*/meta.json."""
import json
from pathlib import Path

root = Path("/verif")
rows = []
for d in sorted((root / "seeded").iterdir()):
    if not (d / "meta.json").exists():
        continue
    m = json.loads((d / "meta.json").read_text())
    caught = m["checks_that_report_it"]
    rules = []
    for prop, reps in caught.items():
        for r in reps[:1]:
            if "[" in r:
                rules.append(f"{prop}: `{r.split('[')[1].split(']')[0]}`")
            else:
                rules.append(prop)
    first = m.get("missed_at_first")
    rows.append(f"| `{m['id']}` | {m['property']} | {m['needs_to_manifest']} | {'; '.join(rules) or '**missed**'} | {first or ''} |")
text = """## 13. Independently seeded changes and which checks catch them

Each change below was written by a fresh sub-agent that saw only the text of one property and its own scratch worktree
(nothing from /verif). It was kept only after I confirmed, in a scratch worktree under /tmp, that its demonstration passes on
the unchanged code, that the 47 existing tests still pass with the change, and that the demonstration fails with it
(`tools/try_seed.py`). Every quick check was then run against /repo with the patch applied (and the patch undone).
`seeded/<id>/` holds `patch.diff`, `demo.py`, `meta.json`.

| id | property | needs, to manifest | reported by (first rule) | note |
|---|---|---|---|---|
""" + "\n".join(rows) + "\n"
p = root / "DESIGN.md"
s = p.read_text()
i = s.index("## 13. Independently seeded changes")
p.write_text(s[:i] + text)
print(len(rows), "rows")
