#!/venv/bin/python
"""Regenerate DESIGN.md section 13 from /verif/seeded/*/meta.json."""
import json
from pathlib import Path

root = Path("/verif")
rows = []
for d in sorted((root / "seeded").iterdir()):
    if not (d / "meta.json").exists():
        continue
    m = json.loads((d / "meta.json").read_text())
    caught = m["checks_that_report_it"]
    rules = []
    for prop, reps in caught.items():
        for r in reps[:1]:
            if "[" in r:
                rules.append(f"{prop}: `{r.split('[')[1].split(']')[0]}`")
            else:
                rules.append(prop)
    first = m.get("missed_at_first")
    rows.append(f"| `{m['id']}` | {m['property']} | {m['needs_to_manifest']} | {'; '.join(rules) or '**missed**'} | {first or ''} |")
text = """## 13. Independently seeded changes and which checks catch them

Each change below was written by a fresh sub-agent that saw only the text of one property and its own scratch worktree
(nothing from /verif). It was kept only after I confirmed, in a scratch worktree under /tmp, that its demonstration passes on
the unchanged code, that the 47 existing tests still pass with the change, and that the demonstration fails with it
(`tools/try_seed.py`). Every quick check was then run against /repo with the patch applied (and the patch undone).
`seeded/<id>/` holds `patch.diff`, `demo.py`, `meta.json`.

| id | property | needs, to manifest | reported by (first rule) | note |
|---|---|---|---|---|
""" + "\n".join(rows) + "\n"
trows = []
tdir = root / "seeded" / "twins"
if tdir.is_dir():
    for d in sorted(tdir.iterdir()):
        if not (d / "meta.json").exists():
            continue
        m = json.loads((d / "meta.json").read_text())
        first = m.get("checks_not_silent_at_first") or m.get("checks_not_silent") or {}
        note = m.get("author_notes", "")
        what = m.get("what") or ""
        trows.append(f"| `{m['id']}` | {what} | {', '.join(sorted(first)) or '-'} | {m.get('fixed_by', '')} |")
ttext = """
## 14. Independent behaviour-preserving refactorings (twins) and what they changed in the analyser

Fresh sub-agents (property texts and a scratch worktree only) were also asked for realistic refactorings that must NOT change
behaviour - renames, extracted / inlined helpers, equivalent expressions, restructured control flow, table dispatch,
comprehensions - each with a differential test that prints a digest of returned bytes, exposed attributes, exception types and
the handle I/O trace on generated inputs. A refactoring was kept (`seeded/twins/<id>/`: `patch.diff`, `equiv.py`, `meta.json`)
after I confirmed in a scratch worktree that the digest is identical before and after and the 47 tests pass
(`tools/try_twin.py`). Every check must stay silent (exit 0) on every twin; `tools/retwin_all.py` re-runs all 20 analyses on
each of them. The third column lists the checks that were NOT silent when the twin first arrived: every one of those was a
false alarm of the analyser (a rule tied to the shape of the code instead of its meaning) and was repaired in the engine or the
rule, never by listing the twin as an exception.

| id | refactoring | checks not silent at first | repaired by |
|---|---|---|---|
""" + "\n".join(trows) + "\n"
p = root / "DESIGN.md"
s = p.read_text()
i = s.index("## 13. Independently seeded changes")
p.write_text(s[:i] + text + ttext)
print(len(rows), "rows,", len(trows), "twins")
