#!/venv/bin/python
"""Re-run every check against every kept seeded change (seeded/<id>/patch.diff) without touching /repo.

For each seed: a scratch worktree of /repo under /tmp, `git apply`, every property's quick analysis with root=<worktree>
(nothing is written to evidence/), worktree removed.  Updates `checks_that_report_it` in meta.json (with --update) and
exits 1 if a seed is reported by no check, or not by the check of its own property where it was before.

usage: reseed_all.py [--update] [seed ids...]
"""
import json, os, shutil, subprocess, sys, tempfile
from concurrent.futures import ProcessPoolExecutor
from pathlib import Path

sys.path.insert(0, "/verif")
PROPS = [f"C{i:02d}" for i in range(1, 21)]


def one(args):
    prop, root = args
    from hvlint.engine import run_check

    rc, chk = run_check(prop, "quick", root=root, quiet=True, write=False)
    reports = []
    if chk is not None:
        for i in list(getattr(chk, "new_violations", [])) + list(getattr(chk, "undecided_armed", [])):
            reports.append(f"{i.rel}:{i.line} {i.func}: [{i.kind}/{i.name}] {i.verdict} {(i.detail or '')[:200]}")
    return prop, rc, reports


def main():
    update = "--update" in sys.argv
    ids = [a for a in sys.argv[1:] if not a.startswith("--")]
    seeds = sorted(p for p in Path("/verif/seeded").iterdir() if (p / "patch.diff").exists() and (not ids or p.name in ids))
    bad = 0
    with ProcessPoolExecutor(16) as ex:
        for sd in seeds:
            wt = Path(tempfile.mkdtemp(prefix="reseed_", dir="/tmp"))
            shutil.rmtree(wt)
            subprocess.run(f"git -C /repo worktree add -q {wt} HEAD", shell=True, check=True, capture_output=True)
            try:
                r = subprocess.run(f"git apply {sd / 'patch.diff'}", shell=True, cwd=wt, capture_output=True, text=True)
                if r.returncode != 0:
                    print(f"{sd.name}: PATCH DOES NOT APPLY {r.stderr[-200:]}")
                    bad += 1
                    continue
                fired = {}
                for prop, rc, reports in ex.map(one, [(p, str(wt)) for p in PROPS]):
                    if rc != 0:
                        fired[prop] = {"rc": rc, "reports": reports[:2]}
            finally:
                subprocess.run(f"git -C /repo worktree remove --force {wt}", shell=True, capture_output=True)
            meta = json.loads((sd / "meta.json").read_text())
            own = meta["property"]
            viol = sorted(p for p, v in fired.items() if v["rc"] == 1)
            status = "ok" if viol else "MISSED"
            if not viol:
                bad += 1
            before = set(meta.get("checks_that_report_it", {}))
            lost = sorted(before - set(fired))
            if lost:
                status += f" (no longer reported by {lost})"
                bad += 1
            print(f"{sd.name}: {status}; VIOLATION from {viol}" + (f"; exit 2 from {sorted(p for p, v in fired.items() if v['rc'] == 2)}" if any(v["rc"] == 2 for v in fired.values()) else "")
                  + ("" if own in viol else f"   [own property {own} silent]"))
            if update:
                meta["checks_that_report_it"] = {k: v["reports"] for k, v in sorted(fired.items()) if v["rc"] == 1}
                (sd / "meta.json").write_text(json.dumps(meta, indent=1))
    print(f"{len(seeds)} seeds, {bad} problems")
    return 1 if bad else 0


if __name__ == "__main__":
    sys.exit(main())
