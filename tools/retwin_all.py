#!/venv/bin/python
"""Re-run every check against every kept behaviour-preserving refactoring (seeded/twins/<id>/patch.diff): all must be silent.

For each twin: scratch worktree of /repo under /tmp, `git apply`, every property's quick analysis with root=<worktree>
(nothing written to evidence/), worktree removed.  Prints one line per twin; exit 1 if any check is not silent.
usage: retwin_all.py [-v] [twin ids...]
"""
import json, shutil, subprocess, sys, tempfile
from concurrent.futures import ProcessPoolExecutor
from pathlib import Path

sys.path.insert(0, "/verif")
from tools.reseed_all import one, PROPS  # noqa: E402


def main():
    verbose = "-v" in sys.argv
    ids = [a for a in sys.argv[1:] if not a.startswith("-")]
    twins = sorted(p for p in Path("/verif/seeded/twins").iterdir() if (p / "patch.diff").exists() and (not ids or p.name in ids))
    bad = 0
    with ProcessPoolExecutor(16) as ex:
        for sd in twins:
            wt = Path(tempfile.mkdtemp(prefix="retwin_", dir="/tmp"))
            shutil.rmtree(wt)
            subprocess.run(f"git -C /repo worktree add -q --detach {wt} HEAD", shell=True, check=True, capture_output=True)
            try:
                r = subprocess.run(f"git apply {sd / 'patch.diff'}", shell=True, cwd=wt, capture_output=True, text=True)
                if r.returncode != 0:
                    print(f"{sd.name}: PATCH DOES NOT APPLY {r.stderr[-200:]}")
                    bad += 1
                    continue
                fired = {}
                for prop, rc, reports in ex.map(one, [(p, str(wt)) for p in PROPS]):
                    if rc != 0:
                        fired[prop] = (rc, reports)
            finally:
                subprocess.run(f"git -C /repo worktree remove --force {wt}", shell=True, capture_output=True)
            if "--record-undecided" in sys.argv:
                mp = sd / "meta.json"
                m = json.loads(mp.read_text())
                und = sorted(p for p, v in fired.items() if v[0] == 2)
                if und and not any(v[0] == 1 for v in fired.values()):
                    m["undecided_ok"] = und
                else:
                    m.pop("undecided_ok", None)
                mp.write_text(json.dumps(m, indent=1))
            if fired:
                bad += 1
                print(f"{sd.name}: NOT SILENT " + ", ".join(f"{p} rc={v[0]}" for p, v in sorted(fired.items())))
                if verbose:
                    for p, v in sorted(fired.items()):
                        for rep in v[1][:4]:
                            print(f"      {p}: {rep[:330]}")
            else:
                print(f"{sd.name}: silent")
    print(f"{len(twins)} twins, {bad} not silent")
    return 1 if bad else 0


if __name__ == "__main__":
    sys.exit(main())
