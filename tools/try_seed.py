#!/venv/bin/python
"""Confirm an independently produced seeded change and run every check against it.

usage: try_seed.py <dir with patchX.diff/demoX.py> <X> [--keep <seed id>]
Steps: scratch worktree (outside /repo and /verif) -> demo on original (0) -> apply -> tests (47 passed) -> demo (non-zero);
then apply the patch to /repo, run all quick checks, undo (git checkout -- .). Prints a JSON summary.
"""
import json, os, shutil, subprocess, sys, tempfile
from pathlib import Path

def sh(cmd, cwd=None, env=None, timeout=900):
    r = subprocess.run(cmd, shell=True, cwd=cwd, env=env, capture_output=True, text=True, timeout=timeout)
    return r.returncode, r.stdout + r.stderr

def main():
    d, X = Path(sys.argv[1]), sys.argv[2]
    patch, demo = d / f"patch{X}.diff", d / f"demo{X}.py"
    out = {"dir": str(d), "variant": X}
    wt = Path(tempfile.mkdtemp(prefix="seedverify_", dir="/tmp"))
    shutil.rmtree(wt)
    rc, o = sh(f"git -C /repo worktree add -q {wt} HEAD")
    env = dict(os.environ, PYTHONPATH=str(wt))
    try:
        rc, o = sh(f"/venv/bin/python {demo}", cwd=wt, env=env)
        out["demo_on_original"] = rc
        rc, o = sh(f"git apply {patch}", cwd=wt)
        out["patch_applies"] = rc == 0
        if rc != 0:
            out["apply_error"] = o[-300:]
        else:
            rc, o = sh("/venv/bin/python -m pytest -q -p no:cacheprovider tests", cwd=wt, env=env)
            out["tests"] = o.strip().splitlines()[-1] if o.strip() else ""
            rc, o = sh(f"/venv/bin/python {demo}", cwd=wt, env=env)
            out["demo_with_change"] = rc
            out["demo_output"] = o[-400:]
    finally:
        sh(f"git -C /repo worktree remove --force {wt}")
    if not out.get("patch_applies"):
        print(json.dumps(out, indent=1)); return 2
    # run the checks against /repo with the patch applied
    rc, o = sh("git -C /repo status --porcelain")
    if o.strip():
        print("refusing: /repo is not clean"); return 2
    rc, o = sh(f"git -C /repo apply {patch}")
    fired = {}
    try:
        m = json.load(open("/verif/MANIFEST.json"))
        from concurrent.futures import ThreadPoolExecutor
        def run(c):
            r = subprocess.run(c["quick_cmd"] + " ; true", shell=True, cwd="/verif", capture_output=True, text=True)
            rr = subprocess.run(c["quick_cmd"], shell=True, cwd="/verif", capture_output=True, text=True)
            return c["property_id"], rr.returncode, rr.stdout
        with ThreadPoolExecutor(8) as ex:
            for pid, rc, so in ex.map(run, m["checks"]):
                if rc != 0:
                    lines = [l.strip() for l in so.splitlines() if l.startswith(("  ", "ANALYSIS-ERROR")) and "[" in l or l.startswith("ANALYSIS-ERROR")]
                    fired[pid] = {"rc": rc, "reports": lines[:4]}
    finally:
        sh("git -C /repo checkout -- .")
        # evidence files were rewritten against the patched tree: restore them from git
        sh("git -C /verif checkout -- evidence")
        sh("rm -rf /verif/evidence/findings")
    out["checks_fired"] = fired
    print(json.dumps(out, indent=1))
    return 0

if __name__ == "__main__":
    sys.exit(main())
